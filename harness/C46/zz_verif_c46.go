//go:build darwin || freebsd || linux

package fuse

import (
	"context"

	"github.com/anacrolix/fuse"

	"github.com/restic/restic/internal/bloblru"
	"github.com/restic/restic/internal/data"
	"github.com/restic/restic/internal/restic"
	"github.com/restic/restic/internal/verifrt"
)

type verifC46Repo struct {
	restic.Repository
	ids   []restic.ID
	blobs [][]byte
	loads int
}

func (r *verifC46Repo) find(id restic.ID) int {
	for i := range r.ids {
		if r.ids[i] == id {
			return i
		}
	}
	return -1
}

func (r *verifC46Repo) LookupBlobSize(h restic.BlobHandle) (uint, bool) {
	i := r.find(h.ID)
	if i < 0 || h.Type != restic.DataBlob {
		return 0, false
	}
	return uint(len(r.blobs[i])), true
}

func (r *verifC46Repo) LoadBlob(_ context.Context, h restic.BlobHandle, _ []byte) ([]byte, error) {
	r.loads++
	i := r.find(h.ID)
	verifrt.Assert(i >= 0, "LoadBlob called for a blob that is not part of the file")
	return r.blobs[i], nil
}

// VerifC46_Read: openFile.Read returns exactly content[off:off+size] clipped to the file size.
func VerifC46_Read() {
	nmax := verifrt.Param("blobs", 3)
	bmax := verifrt.Param("bloblen", 3)
	n := verifrt.Int("nblobs", 0, nmax)
	repo := &verifC46Repo{}
	var whole []byte
	content := make(restic.IDs, n)
	for i := 0; i < n; i++ {
		if i > 0 && len(repo.blobs[len(repo.blobs)-1]) > 0 && verifrt.Bool("repeatPrevious") {
			// the same blob again (runs of identical chunks, e.g. zero-filled regions)
			content[i] = content[i-1]
			whole = append(whole, repo.blobs[len(repo.blobs)-1]...)
			verifrt.Reach("repeated-blob")
			continue
		}
		b := verifrt.Bytes("blob", bmax)
		var id restic.ID
		id[0] = byte(i + 1)
		content[i] = id
		repo.ids = append(repo.ids, id)
		repo.blobs = append(repo.blobs, b)
		whole = append(whole, b...)
	}
	total := len(whole)
	node := &data.Node{Name: "f", Type: data.NodeTypeFile, Content: content, Size: uint64(total)}
	if verifrt.Bool("sizeMismatch") {
		// a snapshot whose recorded size disagrees with its blobs: Open corrects it
		node.Size = uint64(total) + 1
	}
	root := &Root{repo: repo, blobCache: bloblru.New(1 << 20)}
	f := &file{root: root, node: node, inode: 7}

	h, err := f.Open(context.Background(), nil, nil)
	verifrt.Assert(err == nil, "Open must succeed when all blobs are indexed")
	of := h.(*openFile)

	off := verifrt.Int64("off")
	verifrt.Assume(off >= 0)
	size := verifrt.Int("size", 0, total+2)
	req := &fuse.ReadRequest{Offset: off, Size: size}
	resp := &fuse.ReadResponse{Data: make([]byte, size)}
	err = of.Read(context.Background(), req, resp)
	verifrt.Assert(err == nil, "Read must succeed")

	lo := total
	if off < int64(total) {
		lo = int(off)
	}
	hi := total
	if off < int64(total) && int(off)+size < total {
		hi = int(off) + size
	}
	verifrt.Assert(len(resp.Data) == hi-lo, "Read returned a wrong number of bytes")
	for i := 0; i < len(resp.Data) && i < hi-lo; i++ {
		verifrt.Assert(resp.Data[i] == whole[lo+i], "Read returned a wrong byte")
	}
	if hi-lo > 0 {
		verifrt.Reach("nonempty-read")
	} else {
		verifrt.Reach("empty-read")
	}
}

// ---- concurrent readers, failing downloads -------------------------------------------------------

type verifC46SlowRepo struct {
	verifC46Repo
	failFirst bool // the first download of the middle blob fails (transient error / interrupted reader)
	calls     int
}

var errVerifC46 = verifC46Err("download interrupted")

type verifC46Err string

func (e verifC46Err) Error() string { return string(e) }

func (r *verifC46SlowRepo) LoadBlob(_ context.Context, h restic.BlobHandle, _ []byte) ([]byte, error) {
	r.calls++
	mine := r.calls
	// the download takes time: block until an independent goroutine completes it, so that a second
	// reader can arrive while the first download is in flight (every order is explored)
	done := make(chan struct{})
	go func() { close(done) }()
	<-done
	i := r.find(h.ID)
	verifrt.Assert(i >= 0, "LoadBlob called for a blob that is not part of the file")
	if r.failFirst && mine == 1 {
		return nil, errVerifC46
	}
	return append([]byte(nil), r.blobs[i]...), nil
}

// VerifC46_ConcurrentReads: two readers read the same range of a one-blob file at the same time
// through the shared blob cache; the first download may fail. Each reader gets either an error or
// exactly the requested bytes - never fewer or other bytes with a nil error.
func VerifC46_ConcurrentReads() {
	blob := verifrt.BytesN("blob", 2)
	var id restic.ID
	id[0] = 1
	repo := &verifC46SlowRepo{failFirst: verifrt.Bool("firstDownloadFails")}
	repo.ids, repo.blobs = []restic.ID{id}, [][]byte{blob}
	node := &data.Node{Name: "f", Type: data.NodeTypeFile, Content: restic.IDs{id}, Size: 2}
	root := &Root{repo: repo, blobCache: bloblru.New(1 << 20)}
	f := &file{root: root, node: node, inode: 7}
	h, err := f.Open(context.Background(), nil, nil)
	verifrt.Assert(err == nil, "Open must succeed when all blobs are indexed")
	of := h.(*openFile)

	type result struct {
		err  error
		data []byte
	}
	res := make([]result, 2)
	done := make(chan int, 2)
	for r := 0; r < 2; r++ {
		r := r
		go func() {
			req := &fuse.ReadRequest{Offset: 0, Size: 2}
			resp := &fuse.ReadResponse{Data: make([]byte, 2)}
			err := of.Read(context.Background(), req, resp)
			res[r] = result{err, resp.Data}
			done <- r
		}()
	}
	<-done
	<-done
	failed := 0
	for r := 0; r < 2; r++ {
		if res[r].err != nil {
			failed++
			continue
		}
		verifrt.Assert(len(res[r].data) == 2 && res[r].data[0] == blob[0] && res[r].data[1] == blob[1], "a reader got fewer or other bytes than the file holds, without an error")
	}
	if repo.failFirst {
		verifrt.Reach("first-download-failed")
		verifrt.Assert(failed <= 1, "one failed download made both readers fail although the blob can be downloaded")
	} else {
		verifrt.Assert(failed == 0, "a read failed although every download succeeded")
		verifrt.Assert(repo.calls == 1, "the blob was downloaded twice although the readers share the cache")
	}
	verifrt.Reach("both-read")
}

package data

import (
	"github.com/restic/restic/internal/verifrt"
)

func verifC25Tags(name string, max int) []string {
	n := verifrt.Int(name+".n", 0, max)
	out := make([]string, n)
	for i := range out {
		c := verifrt.Byte(name)
		verifrt.Assume(c >= 'a' && c <= 'c') // 3-letter alphabet; tags are compared only for equality
		out[i] = string([]byte{c})
	}
	return out
}

func verifC25In(l []string, s string) bool {
	for _, x := range l {
		if x == s {
			return true
		}
	}
	return false
}

// VerifC25_AddRemove: the tag edit performed by `tag --add A --remove R` (AddTags then RemoveTags,
// exactly as changeTags sequences them) leaves every tag of A\R, no tag of R, nothing foreign, and
// keeps every old tag that is not in R.
func VerifC25_AddRemove() {
	old := verifC25Tags("old", verifrt.Param("old", 3))
	add := verifC25Tags("add", verifrt.Param("add", 2))
	rem := verifC25Tags("rem", verifrt.Param("rem", 2))
	sn := &Snapshot{Hostname: "h", Tags: append([]string(nil), old...)}

	changed := sn.AddTags(add)
	if sn.RemoveTags(rem) {
		changed = true
	}

	for _, a := range add {
		if !verifC25In(rem, a) {
			verifrt.Assert(verifC25In(sn.Tags, a), "a tag of A that is not in R is missing")
		}
	}
	for _, r := range rem {
		verifrt.Assert(!verifC25In(sn.Tags, r), "a tag of R is still present")
	}
	for _, t := range sn.Tags {
		verifrt.Assert(verifC25In(old, t) || verifC25In(add, t), "a tag appeared that was neither present nor added")
	}
	for _, t := range old {
		if !verifC25In(rem, t) {
			verifrt.Assert(verifC25In(sn.Tags, t), "an old tag that was not removed is missing")
		}
	}
	if !changed {
		verifrt.Assert(len(sn.Tags) == len(old), "reported unchanged but the tag list changed")
		for i := range old {
			verifrt.Assert(sn.Tags[i] == old[i], "reported unchanged but the tag list changed")
		}
	}
	verifrt.Assert(sn.Hostname == "h", "another field changed")
	verifrt.Reach("done")
}

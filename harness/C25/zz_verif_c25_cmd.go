package main

// C25 at the command level: the real changeTags (restic tag on one snapshot) with --set L, or
// --add A --remove R, over a three-letter tag alphabet with duplicates allowed everywhere. The
// snapshot that exists afterwards (the saved one if changeTags saved, otherwise the untouched old
// one) carries exactly L, resp. exactly (old U A) \ R, as a set. Storage is C26's environment with
// every operation succeeding (crash points and failures are C26).

import (
	"context"

	"github.com/restic/restic/internal/repository"
	"github.com/restic/restic/internal/verifrt"
)

func verifC25List(name string, lo, max int) []string {
	n := verifrt.Int(name+".n", lo, max)
	out := make([]string, n)
	for i := range out {
		c := verifrt.Byte(name)
		verifrt.Assume(c >= 'a' && c <= 'c')
		out[i] = string([]byte{c})
	}
	return out
}

func verifC25Has(l []string, s string) bool {
	for _, x := range l {
		if x == s {
			return true
		}
	}
	return false
}

func VerifC25_ChangeTags() {
	env, sn, _, _ := verifC26Setup()
	sn.Tags = verifC25List("old", 0, verifrt.Param("old", 2))
	old := append([]string(nil), sn.Tags...)
	var set, add, rem []string
	useSet := verifrt.Bool("use-set")
	if useSet {
		if verifrt.Bool("set-empty") {
			set = []string{""} // --set '' : no tags
		} else {
			set = verifC25List("set", 1, verifrt.Param("set", 2))
		}
	} else {
		add = verifC25List("add", 0, verifrt.Param("add", 1))
		rem = verifC25List("rem", 0, verifrt.Param("rem", 1))
		verifrt.Assume(len(add)+len(rem) > 0)
	}
	changed, err := changeTags(context.Background(), &repository.Repository{}, sn, append([]string(nil), set...), add, rem, func(changedSnapshot) {})
	for _, ev := range env.trace {
		verifrt.Assume(ev.ok) // no storage failures in this harness
	}
	verifrt.Assert(err == nil, "changeTags failed although every storage operation succeeded")

	// the tags of the snapshot that now exists
	final := old
	if env.saved != nil {
		final = env.saved.tags
		verifrt.Assert(changed, "a snapshot was saved but changeTags reports 'unchanged'")
		verifrt.Reach("saved")
	} else {
		verifrt.Assert(!changed, "changeTags reports a change but saved nothing")
		verifrt.Reach("not-saved")
	}
	for _, t := range []string{"a", "b", "c"} {
		var want bool
		if useSet {
			want = verifC25Has(set, t)
		} else {
			want = (verifC25Has(old, t) || verifC25Has(add, t)) && !verifC25Has(rem, t)
		}
		verifrt.Assert(verifC25Has(final, t) == want, "after restic tag the snapshot does not carry exactly the requested tags: "+t)
	}
	verifrt.Assert(!verifC25Has(final, ""), "the empty string is stored as a tag")
}

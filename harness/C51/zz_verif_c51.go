package selfupdate

import (
	"context"
	"crypto/sha256"
	"errors"
	"runtime"

	"github.com/restic/restic/internal/verifrt"
)

const verifC51HexAlpha = "0123456789abcdefABCDEFg "

// verifC51HexTab maps a character to its hexadecimal value, 0xff if it is not a hex digit
// (table look-up with a symbolic index: no path fork).
const verifC51HexTab = "\xff\xff\xff\xff\xff\xff\xff\xff\xff\xff\xff\xff\xff\xff\xff\xff\xff\xff\xff\xff\xff\xff\xff\xff\xff\xff\xff\xff\xff\xff\xff\xff\xff\xff\xff\xff\xff\xff\xff\xff\xff\xff\xff\xff\xff\xff\xff\xff\x00\x01\x02\x03\x04\x05\x06\x07\x08\x09\xff\xff\xff\xff\xff\xff\xff\x0a\x0b\x0c\x0d\x0e\x0f\xff\xff\xff\xff\xff\xff\xff\xff\xff\xff\xff\xff\xff\xff\xff\xff\xff\xff\xff\xff\xff\xff\xff\xff\xff\xff\x0a\x0b\x0c\x0d\x0e\x0f\xff\xff\xff\xff\xff\xff\xff\xff\xff\xff\xff\xff\xff\xff\xff\xff\xff\xff\xff\xff\xff\xff\xff\xff\xff\xff\xff\xff\xff\xff\xff\xff\xff\xff\xff\xff\xff\xff\xff\xff\xff\xff\xff\xff\xff\xff\xff\xff\xff\xff\xff\xff\xff\xff\xff\xff\xff\xff\xff\xff\xff\xff\xff\xff\xff\xff\xff\xff\xff\xff\xff\xff\xff\xff\xff\xff\xff\xff\xff\xff\xff\xff\xff\xff\xff\xff\xff\xff\xff\xff\xff\xff\xff\xff\xff\xff\xff\xff\xff\xff\xff\xff\xff\xff\xff\xff\xff\xff\xff\xff\xff\xff\xff\xff\xff\xff\xff\xff\xff\xff\xff\xff\xff\xff\xff\xff\xff\xff\xff\xff\xff\xff\xff\xff\xff\xff\xff\xff\xff\xff\xff\xff\xff\xff\xff\xff\xff\xff\xff\xff\xff\xff\xff"


// ---------------------------------------------------------------------------------------------
// findHash

// verifC51Line is one line of a checksum file built from a template:
// <2*H hash characters over [0-9a-fA-F] plus 'g' and ' '> <2 separator bytes over {space,tab}>
// <name: 1..2 bytes over {a,b,space}>
type verifC51Line struct {
	hash []byte
	sep  []byte
	name []byte
}

func (l verifC51Line) bytes() []byte {
	var b []byte
	b = append(b, l.hash...)
	b = append(b, l.sep...)
	b = append(b, l.name...)
	return b
}

// decode is the reference hex decoder.
func (l verifC51Line) decode() ([]byte, bool) {
	out := make([]byte, 0, len(l.hash)/2)
	ok := true
	for i := 0; i+1 < len(l.hash); i += 2 {
		hi := verifC51HexTab[l.hash[i]]
		lo := verifC51HexTab[l.hash[i+1]]
		if hi|lo > 0x0f { // 0xff marks a character that is not a hex digit
			ok = false
		}
		out = append(out, hi<<4|lo&0x0f)
	}
	return out, ok
}

func verifC51Pick(alpha string, name string) byte {
	return alpha[verifrt.Int(name, 0, len(alpha)-1)] // symbolic index: no fork
}

func verifC51Eq(a, b []byte) bool {
	if len(a) != len(b) {
		return false
	}
	eq := true
	for i := range a {
		if a[i] != b[i] {
			eq = false
		}
	}
	return eq
}

// VerifC51_FindHash: findHash on a two-line checksum buffer (LF or CRLF line ends, last line
// with or without terminator): a hash is returned only if some line is exactly
// hex(hash) "  " filename -- same name (not a prefix, suffix or padded variant), the two-space
// separator, valid hex -- and it is the hash of the first line carrying that name; an error is
// returned iff no line carries the name or the first one that does has a malformed hash.
func VerifC51_FindHash() {
	hl := verifrt.Param("hashlen", 1)
	alpha := verifC51HexAlpha
	if verifrt.Param("hashspace", 0) == 0 {
		alpha = alpha[:len(alpha)-1] // without ' ' in the hash field
	}
	var lines [2]verifC51Line
	var buf []byte
	fname := []byte{verifC51Pick("ab", "fname")}
	for i := range lines {
		l := &lines[i]
		for k := 0; k < 2*hl; k++ {
			l.hash = append(l.hash, verifC51Pick(alpha, "hash"))
		}
		l.sep = []byte{verifC51Pick(" \t", "sep"), verifC51Pick(" \t", "sep")}
		l.name = []byte{verifC51Pick("ab ", "name")}
		if verifrt.Bool("name2") {
			l.name = append(l.name, verifC51Pick("ab ", "name"))
		}
		buf = append(buf, l.bytes()...)
		if i == 0 {
			if verifrt.Bool("crlf") {
				buf = append(buf, '\r')
			}
			buf = append(buf, '\n')
		} else if verifrt.Bool("finalnl") {
			buf = append(buf, '\n')
		}
	}
	h, err := findHash(buf, string(fname))

	// reference: first line that consists of exactly two "  "-separated fields, the second being
	// the requested name
	first := -1
	var firstHash []byte
	for i := len(lines) - 1; i >= 0; i-- {
		n, f0, f1 := verifC51Fields(lines[i].bytes())
		if n == 2 && verifC51Eq(f1, fname) {
			first = i
			firstHash = f0
		}
	}
	if err != nil {
		verifrt.Reach("findhash-error")
		verifrt.Assert(h == nil, "error together with a hash")
		if first >= 0 {
			_, ok := verifC51Decode(firstHash)
			verifrt.Assert(!ok, "the hash listed for the requested name was not returned")
		}
		return
	}
	verifrt.Reach("findhash-found")
	verifrt.Assert(first >= 0, "a hash was returned although no line is <hash>  <requested name>")
	want, ok := verifC51Decode(firstHash)
	verifrt.Assert(ok, "a malformed hash was returned")
	verifrt.Assert(verifC51Eq(h, want), "returned hash is not the one listed for the requested name")
	// stated directly: the line is hex(h) "  " name, byte for byte
	l := lines[first].bytes()
	verifrt.Assert(len(l) == 2*len(h)+2+len(fname), "the matching line has extra bytes")
	verifrt.Assert(l[2*len(h)] == ' ' && l[2*len(h)+1] == ' ' && verifC51Eq(l[2*len(h)+2:], fname), "the matching line is not <hex>  <name>")
}

// verifC51Fields splits a line at every non-overlapping occurrence of two spaces (scanning from
// the left) and returns the number of fields and the first two.
func verifC51Fields(line []byte) (n int, f0, f1 []byte) {
	start := 0
	for i := 0; i <= len(line); {
		if i == len(line) || (i+1 < len(line) && line[i] == ' ' && line[i+1] == ' ') {
			switch n {
			case 0:
				f0 = line[start:i]
			case 1:
				f1 = line[start:i]
			}
			n++
			i += 2
			start = i
			continue
		}
		i++
	}
	return n, f0, f1
}

// verifC51Decode is the reference hex decoder for a whole field.
func verifC51Decode(f []byte) ([]byte, bool) {
	if len(f)%2 != 0 {
		return nil, false
	}
	return verifC51Line{hash: f}.decode()
}

// ---------------------------------------------------------------------------------------------
// DownloadLatestStableRelease

type verifC51State struct {
	asset       string
	sumsFetched [][]byte // every buffer handed out for SHA256SUMS
	sumsLines   [][]verifC51Line
	sig         []byte
	archive     []byte

	verifiedOK   bool // GPGVerify returned (true, nil) ...
	verifiedData []byte
	verifiedSig  []byte

	extracted     bool
	extractBuf    []byte
	extractName   string
	extractTarget string
	extractAfter  bool // extraction happened after the successful verification
}

var verifC51S *verifC51State

func verifC51Release(_ context.Context, _, _ string) (Release, error) {
	if verifrt.Bool("releaseFails") {
		return Release{}, errors.New("verif: no release")
	}
	s := verifC51S
	return Release{TagName: "v9.9.9", Version: "9.9.9", Assets: []Asset{
		{ID: 1, Name: "SHA256SUMS", URL: "u-sums"},
		{ID: 2, Name: "SHA256SUMS.asc", URL: "u-sig"},
		{ID: 3, Name: s.asset, URL: "u-archive"},
	}}, nil
}

// verifC51SymHash is the number of leading hash characters that are symbolic.
const verifC51SymHash = 4

// verifC51Sums builds a fresh two-line checksum buffer: 64 hash characters of which the first
// four (over {0,9,a,f,A,F,g}) and the last one (5 or 6) are symbolic, the others spell the
// constant tail a5a5.. of the engine's SHA-256 model (its bytes 2..5 are free and must then
// equal 0xa5 for a match), symbolic
// separator bytes, and a name that is the asset name with an optional extra leading byte and a
// symbolic last byte.
func verifC51Sums(asset string) ([]byte, []verifC51Line) {
	var buf []byte
	lines := make([]verifC51Line, 2)
	for i := range lines {
		l := &lines[i]
		for k := 0; k < verifC51SymHash; k++ {
			l.hash = append(l.hash, verifC51Pick("09afAFg", "sumhash"))
		}
		for k := verifC51SymHash; k < 63; k++ {
			l.hash = append(l.hash, "a5"[k%2])
		}
		l.hash = append(l.hash, verifC51Pick("56", "sumhashlast"))
		l.sep = []byte{verifC51Pick(" \t", "sumsep"), verifC51Pick(" \t", "sumsep")}
		if verifrt.Bool("nameprefix") {
			l.name = append(l.name, 'x')
		}
		l.name = append(l.name, asset[:len(asset)-1]...)
		l.name = append(l.name, verifC51Pick("2x", "namelast"))
		buf = append(buf, l.bytes()...)
		buf = append(buf, '\n')
	}
	return buf, lines
}

func verifC51Fetch(_ context.Context, url string) ([]byte, error) {
	s := verifC51S
	if verifrt.Bool("fetchFails") {
		return nil, errors.New("verif: download failed")
	}
	switch url {
	case "u-sums":
		b, lines := verifC51Sums(s.asset)
		s.sumsFetched = append(s.sumsFetched, b)
		s.sumsLines = append(s.sumsLines, lines)
		return b, nil
	case "u-sig":
		return s.sig, nil
	case "u-archive":
		return s.archive, nil
	}
	verifrt.Assert(false, "download of a URL that is not an asset of the release")
	return nil, nil
}

func verifC51SymBytes(lines []verifC51Line) []uint64 {
	var a []uint64
	for _, l := range lines {
		for k := 0; k < verifC51SymHash; k++ {
			a = append(a, uint64(l.hash[k]))
		}
		a = append(a, uint64(l.hash[63]), uint64(l.sep[0]), uint64(l.sep[1]), uint64(len(l.name)), uint64(l.name[len(l.name)-1]))
	}
	return a
}

// verifC51GPG models signature verification as an uninterpreted predicate of (data, sig).
func verifC51GPG(data, sig []byte) (bool, error) {
	s := verifC51S
	which := -1
	for i, b := range s.sumsFetched {
		if len(b) > 0 && len(data) > 0 && &b[0] == &data[0] && len(b) == len(data) {
			which = i
		}
	}
	var args []uint64
	if which >= 0 {
		args = verifC51SymBytes(s.sumsLines[which])
	} else {
		for _, c := range data {
			args = append(args, uint64(c))
		}
	}
	for _, c := range sig {
		args = append(args, uint64(c))
	}
	if !verifrt.UFBool("sigValid", args...) {
		if verifrt.Bool("gpgErrorKind") {
			return false, errors.New("verif: bad signature")
		}
		return false, nil
	}
	if !s.extracted {
		s.verifiedOK = true
		s.verifiedData = data
		s.verifiedSig = sig
	}
	return true, nil
}

func verifC51Extract(buf []byte, filename, target string, _ func(string, ...any)) error {
	s := verifC51S
	verifrt.Assert(!s.extracted, "extraction ran twice")
	s.extracted = true
	s.extractBuf = buf
	s.extractName = filename
	s.extractTarget = target
	s.extractAfter = s.verifiedOK
	if verifrt.Bool("extractFails") {
		return errors.New("verif: cannot write the new binary")
	}
	return nil
}

// VerifC51_Download: DownloadLatestStableRelease with stubbed network, signature check, hash
// and file system: the new binary is written (extractToFile runs) only after GPGVerify returned
// true for a checksum buffer and signature that were downloaded, that verified buffer lists, for
// exactly the archive's file name, the SHA-256 of exactly the bytes that are extracted; every
// other run returns an error and extracts nothing. A run where everything is in order succeeds.
func VerifC51_Download() {
	s := &verifC51State{}
	verifC51S = s
	s.asset = "restic_9.9.9_" + runtime.GOOS + "_" + runtime.GOARCH + ".bz2"
	s.sig = verifrt.BytesN("sig", 2)
	s.archive = verifrt.BytesN("archive", 2)
	verifrt.Stub("internal/selfupdate.GitHubLatestRelease", verifC51Release)
	verifrt.Stub("internal/selfupdate.getGithubData", verifC51Fetch)
	verifrt.Stub("internal/selfupdate.GPGVerify", verifC51GPG)
	verifrt.Stub("internal/selfupdate.extractToFile", verifC51Extract)

	version, err := DownloadLatestStableRelease(context.Background(), "/bin/restic", "0.1.0", nil)

	if s.extracted {
		verifrt.Reach("extracted")
		verifrt.Assert(s.extractAfter && s.verifiedOK, "binary replaced without a successful signature verification before")
		verifrt.Assert(len(s.sumsFetched) >= 1, "no checksum file was downloaded")
		// the verified buffer is a downloaded checksum file, the signature the downloaded one
		which := -1
		for i, b := range s.sumsFetched {
			if len(s.verifiedData) == len(b) && &s.verifiedData[0] == &b[0] {
				which = i
			}
		}
		verifrt.Assert(which >= 0, "the verified data is not a downloaded checksum file")
		verifrt.Assert(len(s.verifiedSig) == len(s.sig) && &s.verifiedSig[0] == &s.sig[0], "the signature checked is not the downloaded one")
		// what is extracted is the downloaded archive, under the asset's name, to the target
		verifrt.Assert(len(s.extractBuf) == len(s.archive) && &s.extractBuf[0] == &s.archive[0], "extracted bytes are not the downloaded archive")
		verifrt.Assert(s.extractName == s.asset, "archive extracted under another name")
		verifrt.Assert(s.extractTarget == "/bin/restic", "extracted to another target")
		// the verified checksum file lists sha256(archive) for exactly that name
		sum := sha256.Sum256(s.archive)
		listed := false
		if which >= 0 {
			for _, l := range s.sumsLines[which] {
				h, ok := l.decode()
				if ok && l.sep[0] == ' ' && l.sep[1] == ' ' && verifC51Eq(l.name, []byte(s.asset)) && verifC51Eq(h, sum[:]) {
					listed = true
				}
			}
		}
		verifrt.Assert(listed, "binary replaced although the verified checksum file does not list the archive's SHA-256 for its exact name")
		if err == nil {
			verifrt.Reach("updated")
			verifrt.Assert(version == "9.9.9", "wrong version reported")
		}
		return
	}
	verifrt.Reach("not-extracted")
	verifrt.Assert(err != nil, "success reported although no binary was written")
	verifrt.Assert(version == "", "version reported together with an error")
}

// VerifC51_UpToDate: nothing is downloaded or written when the latest release is the running one.
func VerifC51_UpToDate() {
	s := &verifC51State{}
	verifC51S = s
	s.asset = "restic_9.9.9_" + runtime.GOOS + "_" + runtime.GOARCH + ".bz2"
	s.sig = verifrt.BytesN("sig", 2)
	s.archive = verifrt.BytesN("archive", 2)
	verifrt.Stub("internal/selfupdate.GitHubLatestRelease", verifC51Release)
	verifrt.Stub("internal/selfupdate.getGithubData", verifC51Fetch)
	verifrt.Stub("internal/selfupdate.GPGVerify", verifC51GPG)
	verifrt.Stub("internal/selfupdate.extractToFile", verifC51Extract)
	version, err := DownloadLatestStableRelease(context.Background(), "/bin/restic", "9.9.9", nil)
	verifrt.Assert(!s.extracted && len(s.sumsFetched) == 0, "download or extraction although restic is up to date")
	if err == nil {
		verifrt.Reach("uptodate")
		verifrt.Assert(version == "9.9.9", "wrong version reported")
	}
}

#!/usr/bin/env python3
"""Summarise seeded-change evaluations: tools/mutsummary.py [results-dir]"""
import json,sys,glob,os
d=sys.argv[1] if len(sys.argv)>1 else '/tmp/evalmut-results'
for f in sorted(glob.glob(d+'/*.json')):
    n=os.path.basename(f)[:-5]
    try: r=json.load(open(f))
    except Exception: print(n,'(running)'); continue
    dw=(r.get('demo_without_change') or {}).get('rc'); dc=(r.get('demo_with_change') or {}).get('rc')
    nf=(r.get('existing_tests') or {}).get('failed_tests')
    cs=' '.join('%s:exit=%s,%ss %s'%(k,v['exit'],v['wall_s'],(v['lines'][1][:90] if len(v['lines'])>1 else (v['lines'][0][:90] if v['lines'] else ''))) for k,v in (r.get('checks') or {}).items())
    print(n,'demo(without,with)=',dw,dc,'builds',r.get('builds'),'newfails',r.get('new_failures',nf),'|',cs, r.get('error','')[:100])

#!/usr/bin/env python3
"""tools/try_thorough.py <base-commit> <workers> <cap_s> <ID:harness> ...
For harnesses whose thorough tier was reduced to the quick bounds: try the original thorough bounds (taken
from checks/<ID>.json at <base-commit>) once more with the given number of workers and a budget cap; if the
run is clean (exit 0), register them again (in every check that shares the harness) with a budget of
max(original, 4 x measured wall); otherwise leave the reduced bounds. Evidence is not touched (-only run)."""
import json,subprocess,sys,time,os,glob,re
base,workers,cap=sys.argv[1],sys.argv[2],int(sys.argv[3])
for item in sys.argv[4:]:
    cid,fn,*rest=item.split(':',2)
    old=json.loads(subprocess.run(['git','-C','/verif','show','%s:checks/%s.json'%(base,cid)],capture_output=True,text=True).stdout)
    oh=[h for h in old['harnesses'] if h['func']==fn]
    if not oh: print(item,'not in base'); continue
    oth=oh[0].get('thorough')
    if rest:
        oth=json.loads(rest[0])  # explicit candidate bounds instead of the original ones
    f='/verif/checks/%s.json'%cid
    cur=json.load(open(f))
    saved=json.dumps(cur,indent=1)
    for h in cur['harnesses']:
        if h['func']==fn:
            h['thorough']=dict(oth)
    json.dump(cur,open(f,'w'),indent=1)
    t0=time.time()
    env=dict(os.environ,VERIF_WORKERS=workers,VERIF_BUDGET_CAP=str(cap),VERIF_PARTIAL='1')
    p=subprocess.run(['./vcheck','-only',fn,cid,'thorough'],cwd='/verif',env=env,capture_output=True,text=True)
    wall=time.time()-t0
    ok=p.returncode==0
    line=[l for l in p.stdout.split('\n') if fn+':' in l]
    print(item,'OK' if ok else 'FAIL rc=%d'%p.returncode,'%.0fs'%wall,(line[0][:120] if line else ''),flush=True)
    open(f,'w').write(saved)  # restore, then apply to all sharing checks if ok
    if ok:
        budget=max(int(oth.get('budget_s',900)),int(4*wall)+60)
        for g in glob.glob('/verif/checks/C*.json'):
            c=json.load(open(g)); ch=False
            for h in c['harnesses']:
                if h['func']==fn and 'reduced to the quick bounds' in h.get('claim',''):
                    h['thorough']=dict(oth); h['thorough']['budget_s']=budget
                    h['claim']=h['claim'].replace(' [thorough tier reduced to the quick bounds: the larger bounds did not finish within the budget]','')
                    ch=True
            if ch: json.dump(c,open(g,'w'),indent=1)

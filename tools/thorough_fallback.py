#!/usr/bin/env python3
"""tools/thorough_fallback.py <ID> <harness> [budget_s]: the thorough tier of this harness did not finish
within its budget (or was otherwise inconclusive) on the unchanged tree; register the bounds that are known
to run clean (the quick tier's) with a larger budget instead. Only bounds that ran clean may be registered."""
import json,sys
cid,fn=sys.argv[1],sys.argv[2]
budget=int(sys.argv[3]) if len(sys.argv)>3 else 1800
f='/verif/checks/%s.json'%cid
c=json.load(open(f))
for h in c['harnesses']:
    if h['func']==fn:
        old=h.get('thorough')
        h['thorough']={'budget_s':budget}
        if 'reduced' not in h['claim']:
            h['claim']+=' [thorough tier reduced to the quick bounds: the larger bounds did not finish within the budget]'
        print(cid,fn,'thorough',old,'->',h['thorough'])
json.dump(c,open(f,'w'),indent=1)

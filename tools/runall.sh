#!/bin/sh
# regenerates every evidence file by running all registered quick checks against /repo
cd "$(dirname "$0")/.."
fail=0
for id in $(python3 -c "
import json
print(' '.join(c['property_id'] for c in json.load(open('MANIFEST.json'))['checks']))"); do
  s=$(date +%s)
  out=$(./vcheck $id ${1:-quick} 2>&1); rc=$?
  e=$(date +%s)
  echo "$id exit=$rc $((e-s))s"
  if [ $rc -ne 0 ]; then echo "$out" | grep -E "VIOLATION|INCONCLUSIVE" | head -3; fail=1; fi
done
exit $fail

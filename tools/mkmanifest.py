#!/usr/bin/env python3
"""Regenerates /verif/MANIFEST.json from checks/*.json and tools/not_applicable.json."""
import json, glob, os, sys
root = os.path.dirname(os.path.dirname(os.path.abspath(__file__)))
props = [json.loads(l)['id'] for l in open(os.path.join(root, 'properties.jsonl'))]
checks = []
claimed = set()
for f in sorted(glob.glob(os.path.join(root, 'checks', 'C*.json'))):
    c = json.load(open(f))
    pid = c['property']
    if c.get('disabled'):
        continue
    claimed.add(pid)
    claims = '; '.join(h.get('claim', h['func']) for h in c['harnesses'])
    solvers = sorted({(h.get('solver') or h.get('quick', {}).get('solver') or 'z3') for h in c['harnesses']})
    checks.append({
        'property_id': pid,
        'quick_cmd': './vcheck %s quick' % pid,
        'thorough_cmd': './vcheck %s thorough' % pid,
        'evidence_file': 'evidence/%s.json' % pid,
        'replay_cmd_template': './vcheck replay {path}',
        'engine': 'gosym',
        'level_claimed': {
            'category': 'model_checking',
            'text': ('Bounded symbolic execution of the real Go functions (go/ssa of /repo\'s working tree, regenerated every run): '
                     + claims + '. Every feasible path within the stated bounds is explored; each assertion is an SMT query (unsat = holds for all values in the bound, sat = concrete counterexample replayed in the engine and, where possible, natively with go test -overlay). '
                     + c.get('level_text', '')).strip(),
            'design_ref': 'DESIGN.md section 5, ' + pid,
        },
        'level_note': ('Assumes: ' + '; '.join(c.get('assumptions', [])) + '. Stubs: ' + '; '.join(c.get('stubs', [])) +
                       '. Outside the claim: ' + '; '.join(c.get('outside', [])) + '. Trusted: go/ssa lowering, the gosym interpreter and simplifier, ' + '/'.join(solvers) + '.'),
        'technique': 'bounded symbolic execution of go/ssa with SMT (%s) path and assertion queries' % '/'.join(solvers),
    })
na_reasons = json.load(open(os.path.join(root, 'tools', 'not_applicable.json')))
na = []
for p in props:
    if p not in claimed:
        na.append({'property_id': p, 'reason': na_reasons.get(p, 'no check registered yet: the symbolic harness for this property has not been built/validated on the unchanged tree')})
m = {
    'version': 1,
    'setup_cmd': './setup.sh',
    'hooks': {
        'guard': 'verif',
        'enable': 'no source hooks: harnesses and the verifrt runtime are injected by go/packages and go test overlays (nothing is written under /repo)',
        'baseline_off_cmd': 'cd /repo && go test -mod=mod -vet=off -count=1 -timeout 25m ./...',
        'source_commits': [],
        'add_only': True,
    },
    'engines': [{'name': 'gosym', 'path': 'engine/cmd/gosym', 'serves_properties': sorted(claimed),
                 'kind_free_text': 'purpose-built bounded symbolic executor for Go on go/ssa (x/tools v0.29.0) with z3/cvc5 back ends; path forking by decision-prefix re-execution; schedules, crash points and faults are symbolic decisions'}],
    'checks': checks,
    'not_applicable': na,
    'notes': 'All checks are solver-based (SMT over symbolic execution of the real code). See DESIGN.md. Exit 0 = held within bounds; 1 = VIOLATION (replayed); 2 = inconclusive (never registered as clean).',
}
json.dump(m, open(os.path.join(root, 'MANIFEST.json'), 'w'), indent=1)
print('checks:', len(checks), 'not_applicable:', len(na))

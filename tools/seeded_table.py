#!/usr/bin/env python3
"""Markdown table of the seeded changes under /verif/seeded from their meta.json / evaluation.json."""
import json, os, re, glob
rows=[]
for d in sorted(glob.glob('/verif/seeded/*-*')):
    name=os.path.basename(d)
    try: meta=json.load(open(d+'/meta.json'))
    except Exception: meta={}
    try: ev=json.load(open(d+'/evaluation.json'))
    except Exception: ev={}
    patch=open(d+'/patch.diff').read() if os.path.exists(d+'/patch.diff') else ''
    files=sorted(set(re.findall(r'^\+\+\+ b/(\S+)',patch,re.M)))
    funcs=sorted(set(re.findall(r'^@@ .* @@ func (?:\([^)]*\) )?(\w+)',patch,re.M)))
    first=ev.get('checks',{})
    def verdict(c):
        if not c: return '—'
        if c.get('exit')==1 and any(l.startswith('VIOLATION') for l in c.get('lines',[])):
            h=[l for l in c['lines'] if l.startswith('  harness=')]
            m=re.search(r'harness=(\S+)',h[0]) if h else None
            return 'caught ('+(m.group(1) if m else '?')+')'
        if c.get('exit')==2: return 'inconclusive'
        return 'missed'
    f1=verdict(first.get(name.split('-')[0]) or (list(first.values())[0] if first else None))
    rc=ev.get('recheck')
    f2=verdict(rc) if rc else ''
    nf=[t for t in (ev.get('existing_tests') or {}).get('failed_tests',[]) if t not in ('TestBackupErrors','TestGapInBlobs','TestMount','TestMountSameTimestamps','TestRepositoryLoadIndex','TestRepositoryLoadUnpackedRetryBroken')]
    note=ev.get('note','')
    if nf: note=(note+' existing tests that failed in the evaluation run beyond the sandbox baseline: '+', '.join(nf)).strip()
    what=(meta.get('summary') or '').split('. ')[0][:160].replace('|','\\|').replace('\n',' ')
    rows.append((name, ', '.join(os.path.basename(f) for f in files)+(' '+'/'.join(funcs[:2]) if funcs else ''), what, f1, f2, note))
print('| change | where | what | first run | current checks | note |')
print('|---|---|---|---|---|---|')
for r in rows: print('| '+' | '.join(r)+' |')

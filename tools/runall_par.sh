#!/bin/sh
# runs every registered check of the given tier against /repo, N at a time:
#   tools/runall_par.sh <quick|thorough> <parallel> <workers per check> [cap seconds per check]
# prints "<ID> exit=<rc> <seconds>s" per check and the INCONCLUSIVE/VIOLATION lines of failing ones.
cd "$(dirname "$0")/.."
tier=${1:-quick}; par=${2:-3}; workers=${3:-5}; cap=${4:-3600}
ids=$(python3 -c "
import json
print(' '.join(c['property_id'] for c in json.load(open('MANIFEST.json'))['checks']))")
mkdir -p /tmp/runall-$tier
printf '%s\n' $ids | xargs -P "$par" -I{} sh -c '
  s=$(date +%s)
  VERIF_WORKERS='"$workers"' timeout '"$cap"' ./vcheck {} '"$tier"' > /tmp/runall-'"$tier"'/{}.log 2>&1; rc=$?
  e=$(date +%s)
  echo "{} exit=$rc $((e-s))s"
  if [ $rc -ne 0 ]; then grep -E "VIOLATION|INCONCLUSIVE" /tmp/runall-'"$tier"'/{}.log | cut -c1-220 | sort | uniq -c | head -4; fi
'

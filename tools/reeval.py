#!/usr/bin/env python3
"""Re-run the registered check of a seeded change against the tree with the change applied:
   tools/reeval.py <ID>-<n> [...]      (results go to seeded/<ID>-<n>/evaluation.json["recheck"])
Uses a scratch worktree of /repo under /tmp which is removed afterwards; /repo is not modified."""
import json, os, subprocess, sys, time
def sh(cmd, cwd=None, env=None, timeout=3600):
    p=subprocess.run(cmd,shell=True,cwd=cwd,env=env,capture_output=True,text=True,timeout=timeout)
    return p.returncode,p.stdout+p.stderr
commit=sh('git -C /verif rev-parse --short HEAD')[1].strip()
for name in sys.argv[1:]:
    d='/verif/seeded/'+name
    pid=name.split('-')[0]
    wt='/tmp/reeval-'+name
    sh('git -C /repo worktree remove --force '+wt)
    rc,out=sh('git -C /repo worktree add --detach %s HEAD'%wt); assert rc==0,out
    try:
        rc,out=sh('git apply %s/patch.diff'%d,cwd=wt)
        if rc!=0:
            res={'error':'patch does not apply: '+out[-300:]}
        else:
            t0=time.time()
            env=dict(os.environ,VERIF_REPO=wt,VERIF_WORKERS=os.environ.get('VERIF_WORKERS','8'))
            rc,out=sh('./vcheck %s quick'%pid,cwd='/verif',env=env)
            al=[l for l in out.split('\n') if l.startswith(('VIOLATION','  harness=','INCONCLUSIVE','KNOWN-FINDING'))]
            lines=([l for l in al if not l.startswith('INCONCLUSIVE')]+[l for l in al if l.startswith('INCONCLUSIVE')])[:8]
            res={'check':pid,'tier':'quick','exit':rc,'caught':rc==1 and any(l.startswith('VIOLATION') for l in lines),'wall_s':round(time.time()-t0,1),'lines':lines,'verif_commit':commit}
        f=d+'/evaluation.json'
        ev=json.load(open(f)) if os.path.exists(f) else {}
        ev['recheck']=res
        json.dump(ev,open(f,'w'),indent=1)
        print(name,res.get('caught'),res.get('exit'),res.get('wall_s'),(res.get('lines') or [''])[1][:100] if len(res.get('lines') or [])>1 else res.get('error',''),flush=True)
    finally:
        sh('git -C /repo worktree remove --force '+wt)

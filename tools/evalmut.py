#!/usr/bin/env python3
"""Evaluate a seeded change: tools/evalmut.py <ID> <n> [--tier quick|thorough] [--keep]
Applies /tmp/mut-out/<ID>/<n>/patch.diff to a scratch worktree of /repo HEAD, confirms it builds,
runs the demonstration with and without the change, runs the tests of the touched packages,
then runs ./vcheck <ID> against the changed tree and reports whether the check raises a VIOLATION.
Nothing in /repo is modified."""
import json, os, re, shutil, subprocess, sys, time
TC='/root/go/pkg/mod/golang.org/toolchain@v0.0.1-go1.25.10.linux-amd64/bin'
env=dict(os.environ, PATH=TC+':'+os.environ['PATH'], GOTOOLCHAIN='local', GOFLAGS='-mod=mod', GOPROXY='off')
def sh(cmd, cwd=None, timeout=1800, extra=None):
    e=dict(env); e.update(extra or {})
    p=subprocess.run(cmd, shell=True, cwd=cwd, env=e, capture_output=True, text=True, timeout=timeout)
    return p.returncode, (p.stdout+p.stderr)
def main():
    pid, n = sys.argv[1], sys.argv[2]
    tier='quick'
    if '--tier' in sys.argv: tier=sys.argv[sys.argv.index('--tier')+1]
    checks=[pid]
    if '--checks' in sys.argv: checks=sys.argv[sys.argv.index('--checks')+1].split(',')
    src='/tmp/mut-out/%s/%s'%(pid,n)
    wt='/tmp/evalmut-%s-%s'%(pid,n)
    sh('git -C /repo worktree remove --force %s'%wt)
    rc,out=sh('git -C /repo worktree add --detach %s HEAD'%wt)
    assert rc==0,out
    res={'property':pid,'n':n,'repo_head':sh('git -C /repo rev-parse --short HEAD')[1].strip()}
    try:
        meta=json.load(open(src+'/meta.json'))
        demo=[f for f in os.listdir(src) if f.startswith('demo')]
        demofile=demo[0] if demo else None
        # where does the demo go? first comment line with a path
        dest=None
        if demofile:
            head=open(src+'/'+demofile).read(3000)
            m=re.search(r'((?:internal|cmd)/[\w/\.\-]+_test\.go|(?:internal|cmd)/[\w/\.\-]+\.go)', head)
            dest=m.group(1) if m else None
        res['demo_dest']=dest
        democmd=meta.get('demo_cmd','')
        democmd=re.sub(r'/tmp/mut/%s\b'%pid, wt, democmd)
        democmd=re.sub(r'^cd \S+ && ','',democmd.strip())
        m2=re.search(r'\bgo (test|run)\b', democmd)
        if m2: democmd=democmd[m2.start():]
        democmd=re.split(r'\s+\(', democmd)[0].strip()
        res['demo_cmd']=democmd
        if dest:
            os.makedirs(os.path.dirname(wt+'/'+dest),exist_ok=True)
            shutil.copy(src+'/'+demofile, wt+'/'+dest)
        # demo without the change
        rc0,out0=sh(democmd,cwd=wt) if democmd else (None,'')
        res['demo_without_change']={'rc':rc0,'tail':out0[-400:]}
        rc,out=sh('git apply %s/patch.diff'%src,cwd=wt)
        res['patch_applies']=(rc==0)
        if rc!=0:
            res['error']=out[-500:]; return res
        rc,out=sh('go build ./...',cwd=wt)
        res['builds']=(rc==0)
        if rc!=0:
            res['error']=out[-800:]; return res
        rc1,out1=sh(democmd,cwd=wt) if democmd else (None,'')
        res['demo_with_change']={'rc':rc1,'tail':out1[-400:]}
        if '--demo-only' in sys.argv:
            return res
        # existing tests of touched packages (demo file removed)
        if dest: os.remove(wt+'/'+dest)
        files=re.findall(r'^\+\+\+ b/(\S+)', open(src+'/patch.diff').read(), re.M)
        pkgs=sorted({'./'+os.path.dirname(f)+'/...' for f in files})
        if any(f.startswith('internal/') for f in files) and './cmd/restic/...' not in pkgs: pkgs.append('./cmd/restic/')
        rc,out=sh('go test -count=1 %s 2>&1 | grep -E "^(--- FAIL|FAIL|ok|panic)"'%' '.join(pkgs),cwd=wt,timeout=2400)
        fails=sorted(set(re.findall(r'--- FAIL: (\S+)',out)))
        res['existing_tests']={'packages':pkgs,'failed_tests':fails}
        # checks
        res['checks']={}
        for c in checks:
            t0=time.time()
            rc,out=sh('./vcheck %s %s'%(c,tier),cwd='/verif',extra={'VERIF_REPO':wt,'VERIF_WORKERS':os.environ.get('VERIF_WORKERS','12')},timeout=3600)
            lines=[l for l in out.split('\n') if l.startswith(('VIOLATION','  harness=','INCONCLUSIVE','KNOWN-FINDING'))][:6]
            res['checks'][c]={'exit':rc,'wall_s':round(time.time()-t0,1),'lines':lines}
        return res
    finally:
        sh('git -C /repo worktree remove --force %s'%wt)
r=main()
print(json.dumps(r,indent=1))
if '--keep' in sys.argv:
    pid,n=sys.argv[1],sys.argv[2]
    d='/verif/seeded/%s-%s'%(pid,n)
    os.makedirs(d,exist_ok=True)
    src='/tmp/mut-out/%s/%s'%(pid,n)
    for f in os.listdir(src): shutil.copy(src+'/'+f,d+'/'+f)
    if '--demo-only' in sys.argv and os.path.exists(d+'/evaluation.json'):
        old=json.load(open(d+'/evaluation.json'))
        for k in ('demo_cmd','demo_dest','demo_without_change','demo_with_change'): old[k]=r.get(k)
        r=old
    json.dump(r,open(d+'/evaluation.json','w'),indent=1)

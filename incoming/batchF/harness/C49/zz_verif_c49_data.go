package data

import (
	"github.com/restic/restic/internal/verifrt"
)

// VerifC49_ParseDurationTotal: ParseDuration is total on arbitrary short byte strings and, when it
// accepts, printing the result and parsing it again gives the same value.
func VerifC49_ParseDurationTotal() {
	s := verifrt.String("s", verifrt.Param("len", 4))
	if verifrt.Param("ascii", 0) != 0 {
		for i := 0; i < len(s); i++ {
			verifrt.Assume(s[i] < 0x80)
		}
	}
	d, err := ParseDuration(s)
	if err != nil {
		verifrt.Reach("rejected")
		verifrt.Assert(d == Duration{}, "rejected input must return the zero Duration")
		return
	}
	verifrt.Reach("accepted")
	d2, err2 := ParseDuration(d.String())
	verifrt.Assert(err2 == nil, "printed duration does not parse")
	verifrt.Assert(d2 == d, "printed duration parses to a different value")
}

// VerifC49_ParseDurationDigits: <sign?> <1..L digits> <unit>: no panic, and an accepted value equals
// the denotation of the digit string (computed here with explicit overflow tracking).
func VerifC49_ParseDurationDigits() {
	lmax := verifrt.Param("digits", 20)
	n := verifrt.Int("ndigits", 1, lmax)
	neg := verifrt.Bool("neg")
	b := make([]byte, 0, n+2)
	if neg {
		b = append(b, '-')
	}
	var val uint64
	overflow := false
	for i := 0; i < n; i++ {
		c := verifrt.Byte("digit")
		verifrt.Assume(c >= '0' && c <= '9')
		b = append(b, c)
		dgt := uint64(c - '0')
		if val > (1<<63-1-dgt)/10 {
			overflow = true
		}
		val = val*10 + dgt
	}
	units := "ymdh"
	u := verifrt.Int("unit", 0, 3)
	b = append(b, units[u])
	d, err := ParseDuration(string(b))
	if err != nil {
		verifrt.Reach("digits-rejected")
		verifrt.Assert(overflow, "a representable number was rejected")
		return
	}
	verifrt.Reach("digits-accepted")
	verifrt.Assert(!overflow, "an out-of-range number was accepted")
	want := int(val)
	if neg {
		want = -want
	}
	var got int
	switch u {
	case 0:
		got = d.Years
	case 1:
		got = d.Months
	case 2:
		got = d.Days
	case 3:
		got = d.Hours
	}
	verifrt.Assert(got == want, "parsed value differs from the denotation of the digits")
}

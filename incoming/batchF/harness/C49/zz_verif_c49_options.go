package options

import (
	"github.com/restic/restic/internal/verifrt"
)

func verifC49IsSpace(c byte) bool {
	return c == ' ' || c == '\t' || c == '\n' || c == '\v' || c == '\f' || c == '\r'
}

// verifC49Trim is the reference for strings.TrimSpace on ASCII strings.
func verifC49Trim(s string) string {
	for len(s) > 0 && verifC49IsSpace(s[0]) {
		s = s[1:]
	}
	for len(s) > 0 && verifC49IsSpace(s[len(s)-1]) {
		s = s[:len(s)-1]
	}
	return s
}

// verifC49Lower is the reference for strings.ToLower on ASCII strings.
func verifC49Lower(s string) string {
	b := []byte(s)
	for i := range b {
		if b[i] >= 'A' && b[i] <= 'Z' {
			b[i] += 'a' - 'A'
		}
	}
	return string(b)
}

// verifC49Split is the reference reading of one -o argument: split at the first '=', trim both
// sides, lower-case the key.
func verifC49Split(s string) (key, value string) {
	eq := -1
	for i := 0; i < len(s) && eq < 0; i++ {
		if s[i] == '=' {
			eq = i
		}
	}
	if eq < 0 {
		return verifC49Lower(verifC49Trim(s)), ""
	}
	return verifC49Lower(verifC49Trim(s[:eq])), verifC49Trim(s[eq+1:])
}

// VerifC49_OptionsSplit: splitKeyValue on every string of <= L bytes over {a,B,'.','=',space,tab}
// returns the denoted (trimmed, lower-cased) key and (trimmed) value.
func VerifC49_OptionsSplit() {
	const alpha = "aB.= \t"
	n := verifrt.Int("len", 0, verifrt.Param("len", 4))
	b := make([]byte, n)
	for i := range b {
		b[i] = alpha[verifrt.Int("ch", 0, len(alpha)-1)] // symbolic index: no fork
	}
	s := string(b)
	k, v := splitKeyValue(s)
	wk, wv := verifC49Split(s)
	verifrt.Assert(k == wk, "key differs from its denotation")
	verifrt.Assert(v == wv, "value differs from its denotation")
	verifrt.Reach("split")
}

// verifC49Arg builds one -o argument from a template: key is empty or three bytes
// [aAbB][.a][ab], followed by nothing, "=" or "=" and a value byte over {x,y}; it returns the
// argument and its denotation.
func verifC49Arg() (arg, key, val string) {
	var b []byte
	if !verifrt.Bool("emptykey") {
		k0 := byte('a') + byte(verifrt.Int("k0", 0, 1))
		k1 := byte('.')
		if verifrt.Bool("k1") {
			k1 = 'a'
		}
		k2 := byte('a') + byte(verifrt.Int("k2", 0, 1))
		key = string([]byte{k0, k1, k2})
		if verifrt.Bool("upper") {
			k0 -= 'a' - 'A'
		}
		b = append(b, k0, k1, k2)
	}
	switch verifrt.Int("form", 0, 2) {
	case 1:
		b = append(b, '=')
	case 2:
		v := byte('x') + byte(verifrt.Int("v", 0, 1))
		b = append(b, '=', v)
		val = string([]byte{v})
	}
	return string(b), key, val
}

// VerifC49_OptionsParse: options.Parse on N template arguments (see verifC49Arg):
// rejected iff some key is empty or a key occurs twice with different values; accepted => the map
// holds exactly the denoted key/value pairs. Extract(ns) returns exactly the keys below ns, with
// the prefix removed.
func VerifC49_OptionsParse() {
	n := verifrt.Param("args", 2)
	in := make([]string, n)
	keys := make([]string, n)
	vals := make([]string, n)
	for i := range in {
		in[i], keys[i], vals[i] = verifC49Arg()
	}
	wantErr := false
	for i := 0; i < n && !wantErr; i++ {
		if keys[i] == "" {
			wantErr = true
		}
		for j := 0; j < i && !wantErr; j++ {
			if keys[j] == keys[i] && vals[j] != vals[i] {
				wantErr = true
			}
		}
	}
	opts, err := Parse(in)
	if err != nil {
		verifrt.Reach("options-rejected")
		verifrt.Assert(wantErr, "well-formed, consistent options were rejected")
		verifrt.Assert(len(opts) == 0, "rejected options must return an empty map")
		return
	}
	verifrt.Reach("options-accepted")
	verifrt.Assert(!wantErr, "an empty key or a conflicting duplicate key was accepted")
	distinct := 0
	for i := 0; i < n; i++ {
		v, ok := opts[keys[i]]
		verifrt.Assert(ok && v == vals[i], "option missing or bound to a different value")
		first := true
		for j := 0; j < i; j++ {
			if keys[j] == keys[i] {
				first = false
			}
		}
		if first {
			distinct++
		}
	}
	verifrt.Assert(len(opts) == distinct, "the map holds keys that were not given")

	// Extract: namespace "a" given with or without the trailing dot
	ns := "a"
	if verifrt.Bool("dot") {
		ns = "a."
	}
	ex := opts.Extract(ns)
	cnt := 0
	for i := 0; i < n; i++ {
		k := keys[i]
		in := len(k) >= 2 && k[0] == 'a' && k[1] == '.'
		if in {
			verifrt.Reach("options-extracted")
			v, ok := ex[k[2:]]
			verifrt.Assert(ok && v == vals[i], "Extract lost a key of the namespace or changed its value")
			first := true
			for j := 0; j < i; j++ {
				if keys[j] == k {
					first = false
				}
			}
			if first {
				cnt++
			}
		}
	}
	verifrt.Assert(len(ex) == cnt, "Extract returned keys outside the namespace")
}

package ui

import (
	"github.com/restic/restic/internal/verifrt"
)

// verifC49Unit returns the multiplier denoted by a unit suffix character (0 = not a suffix).
func verifC49Unit(c byte) uint64 {
	switch c {
	case 'b', 'B':
		return 1
	case 'k', 'K':
		return 1 << 10
	case 'm', 'M':
		return 1 << 20
	case 'g', 'G':
		return 1 << 30
	case 't', 'T':
		return 1 << 40
	}
	return 0
}

// verifC49Denote is the reference reading of a size string: [+-]? digit+ [bBkKmMgGtT]?
// It returns ok=false if s is not of that form, otherwise sign, magnitude of the number (the
// strings considered are short enough that the digits fit a uint64) and the unit.
func verifC49Denote(s string) (ok bool, neg bool, mag uint64, unit uint64) {
	if len(s) == 0 {
		return false, false, 0, 0
	}
	unit = verifC49Unit(s[len(s)-1])
	if unit != 0 {
		s = s[:len(s)-1]
	} else {
		unit = 1
	}
	if len(s) > 0 && (s[0] == '+' || s[0] == '-') {
		neg = s[0] == '-'
		s = s[1:]
	}
	if len(s) == 0 {
		return false, false, 0, 0
	}
	for i := 0; i < len(s); i++ {
		if s[i] < '0' || s[i] > '9' {
			return false, false, 0, 0
		}
		mag = mag*10 + uint64(s[i]-'0')
	}
	return true, neg, mag, unit
}

// VerifC49_ParseBytesTotal: ParseBytes is total on arbitrary short strings; it accepts exactly
// the strings of the form [+-]?digits[unit] whose value is in [0, MaxInt64], and returns the
// denoted value.
func VerifC49_ParseBytesTotal() {
	s := verifrt.String("s", verifrt.Param("len", 4))
	if verifrt.Param("ascii", 0) != 0 {
		for i := 0; i < len(s); i++ {
			verifrt.Assume(s[i] < 0x80)
		}
	}
	v, err := ParseBytes(s)
	ok, neg, mag, unit := verifC49Denote(s)
	// <= 6 characters: at most 6 digits times 2^40 < 2^63, no overflow possible here
	want := int64(mag * unit)
	if err != nil {
		verifrt.Reach("rejected")
		verifrt.Assert(v == 0, "rejected input must return 0")
		verifrt.Assert(!ok || (neg && mag != 0), "a well-formed non-negative size was rejected")
		return
	}
	verifrt.Reach("accepted")
	verifrt.Assert(ok, "a string that is not [+-]digits[unit] was accepted")
	verifrt.Assert(!neg || mag == 0, "a negative size was accepted")
	verifrt.Assert(v == want, "accepted size differs from its denotation")
}

// VerifC49_ParseBytesDigits: [-]<m..D digits, leading zeros allowed>[unit]: accepted iff
// digits*unit fits an int64 (and is not negative); the accepted value is the exact product,
// never a wrapped one. The reference value is kept in two decimal limbs (everything above the
// last 18 digits / the last 18 digits) so that no 64-bit overflow can occur in the oracle.
func VerifC49_ParseBytesDigits() {
	const suffixes = "BbKkMmGgTt"
	u := verifrt.Int("unit", 0, len(suffixes)) // == len(suffixes): no suffix
	var unit uint64 = 1
	suffix := byte(0)
	for k := 0; k < len(suffixes); k++ { // concretise the unit per path
		if u == k {
			suffix = suffixes[k]
			unit = verifC49Unit(suffix)
		}
	}
	var n int
	if verifrt.Param("perunit", 0) != 0 {
		// one digit more than MaxInt64/unit has: reaches the value<0 and the hi!=0 region of the
		// overflow check for this unit (leading zeros cover all smaller values)
		switch unit {
		case 1:
			n = 20
			if suffix != 0 {
				n = 3 // "B"/"b": same arithmetic as no suffix; only the suffix handling differs
			}
		case 1 << 10:
			n = 17
		case 1 << 20:
			n = 14
		case 1 << 30:
			n = 11
		default:
			n = 8
		}
	} else {
		n = verifrt.Int("ndigits", verifrt.Param("mindigits", 1), verifrt.Param("digits", 20))
	}
	neg := verifrt.Bool("neg")
	b := make([]byte, 0, n+2)
	if neg {
		b = append(b, '-')
	}
	var hi, lo uint64 // number == hi*10^18 + lo, lo < 10^18, hi < 1000 (n <= 21)
	for i := 0; i < n; i++ {
		c := verifrt.Byte("digit")
		verifrt.Assume(c-'0' <= 9)
		b = append(b, c)
		if i < n-18 {
			hi = hi*10 + uint64(c-'0')
		} else {
			lo = lo*10 + uint64(c-'0')
		}
	}
	if suffix != 0 {
		b = append(b, suffix)
	}
	v, err := ParseBytes(string(b))

	// MaxInt64 = 9*10^18 + 223372036854775807
	fits := false
	var val uint64
	if hi < 9 || (hi == 9 && lo <= 223372036854775807) {
		val = hi*1000000000000000000 + lo
		if val <= (1<<63-1)/unit && (!neg || val == 0) {
			fits = true
		}
	}
	if err != nil {
		verifrt.Reach("digits-rejected")
		verifrt.Assert(v == 0, "rejected input must return 0")
		verifrt.Assert(!fits, "a representable size was rejected")
		return
	}
	verifrt.Reach("digits-accepted")
	verifrt.Assert(fits, "a size outside [0, MaxInt64] was accepted (wrapped product)")
	verifrt.Assert(v >= 0, "negative result")
	verifrt.Assert(uint64(v) == val*unit, "accepted size differs from digits*unit")
}

package main

import (
	"github.com/restic/restic/internal/ui"
	"github.com/restic/restic/internal/verifrt"
)

// verifC49Number is the reference reading of [sign]digit+ for short strings (no overflow possible
// for <= 18 digits): ok=false if s is not of that form.
func verifC49Number(s string, allowSign bool) (ok bool, neg bool, mag uint64) {
	if allowSign && len(s) > 0 && (s[0] == '+' || s[0] == '-') {
		neg = s[0] == '-'
		s = s[1:]
	}
	if len(s) == 0 {
		return false, false, 0
	}
	for i := 0; i < len(s); i++ {
		if s[i] < '0' || s[i] > '9' {
			return false, false, 0
		}
		mag = mag*10 + uint64(s[i]-'0')
	}
	return true, neg, mag
}

// VerifC49_PolicyCountTotal: ForgetPolicyCount.Set on "unlimited" and on every short string:
// accepted iff "unlimited" (-> -1) or [+-]digits denoting a non-negative number (-> that number).
func VerifC49_PolicyCountTotal() {
	var s string
	if verifrt.Bool("unlimited") {
		// "unlimited" with up to one byte changed
		b := []byte("unlimited")
		if verifrt.Bool("mutate") {
			i := verifrt.Int("pos", 0, len(b)-1)
			b[i] = verifrt.Byte("repl")
		}
		s = string(b)
	} else {
		s = verifrt.String("s", verifrt.Param("len", 4))
		if verifrt.Param("ascii", 0) != 0 {
			for i := 0; i < len(s); i++ {
				verifrt.Assume(s[i] < 0x80)
			}
		}
	}
	c := ForgetPolicyCount(7)
	err := c.Set(s)
	ok, neg, mag := verifC49Number(s, true)
	if err != nil {
		verifrt.Reach("count-rejected")
		verifrt.Assert(c == 7, "rejected input changed the count")
		verifrt.Assert(s != "unlimited", "'unlimited' rejected")
		verifrt.Assert(!ok || (neg && mag != 0), "a well-formed non-negative count was rejected")
		return
	}
	if s == "unlimited" {
		verifrt.Reach("count-unlimited")
		verifrt.Assert(c == -1, "'unlimited' must give -1")
		return
	}
	verifrt.Reach("count-accepted")
	verifrt.Assert(ok, "a string that is neither 'unlimited' nor a number was accepted")
	verifrt.Assert(!neg || mag == 0, "a negative count was accepted")
	verifrt.Assert(c >= 0 && uint64(c) == mag, "accepted count differs from its denotation")
}

// VerifC49_PolicyCountDigits: [-]<D digits, leading zeros allowed>: accepted iff the number is in
// [0, MaxInt64]; accepted value == denotation (two-limb reference, see ParseBytesDigits).
func VerifC49_PolicyCountDigits() {
	n := verifrt.Int("ndigits", verifrt.Param("mindigits", 1), verifrt.Param("digits", 20))
	neg := verifrt.Bool("neg")
	b := make([]byte, 0, n+1)
	if neg {
		b = append(b, '-')
	}
	var hi, lo uint64
	for i := 0; i < n; i++ {
		d := verifrt.Byte("digit")
		verifrt.Assume(d-'0' <= 9)
		b = append(b, d)
		if i < n-18 {
			hi = hi*10 + uint64(d-'0')
		} else {
			lo = lo*10 + uint64(d-'0')
		}
	}
	c := ForgetPolicyCount(7)
	err := c.Set(string(b))
	fits := false
	var val uint64
	if hi < 9 || (hi == 9 && lo <= 223372036854775807) {
		val = hi*1000000000000000000 + lo
		fits = !neg || val == 0
	}
	if err != nil {
		verifrt.Reach("countdigits-rejected")
		verifrt.Assert(!fits, "a representable non-negative count was rejected")
		verifrt.Assert(c == 7, "rejected input changed the count")
		return
	}
	verifrt.Reach("countdigits-accepted")
	verifrt.Assert(fits, "a negative or out-of-range count was accepted")
	verifrt.Assert(c >= 0 && uint64(c) == val, "accepted count differs from its denotation")
}

// VerifC49_SubsetBuckets: --read-data-subset=<1..D digits>/<1..D digits> (leading zeros allowed):
// checkFlags accepts iff 1 <= n <= t <= 256, and the values stringToIntSlice hands to
// selectPacksByBucket are exactly the denoted n and t.
func VerifC49_SubsetBuckets() {
	dmax := verifrt.Param("digits", 3)
	var parts [2]uint64
	var b []byte
	for p := 0; p < 2; p++ {
		n := verifrt.Int("ndigits", 1, dmax)
		for i := 0; i < n; i++ {
			d := verifrt.Byte("digit")
			verifrt.Assume(d-'0' <= 9)
			b = append(b, d)
			parts[p] = parts[p]*10 + uint64(d-'0')
		}
		if p == 0 {
			b = append(b, '/')
		}
	}
	s := string(b)
	err := checkFlags(CheckOptions{ReadDataSubset: s})
	want := parts[0] >= 1 && parts[0] <= parts[1] && parts[1] <= 256
	if err != nil {
		verifrt.Reach("buckets-rejected")
		verifrt.Assert(!want, "a valid n/t was rejected")
		return
	}
	verifrt.Reach("buckets-accepted")
	verifrt.Assert(want, "n/t outside 1 <= n <= t <= 256 was accepted")
	sl, err2 := stringToIntSlice(s)
	verifrt.Assert(err2 == nil && len(sl) == 2, "accepted n/t does not parse to two numbers")
	verifrt.Assert(uint64(sl[0]) == parts[0] && uint64(sl[1]) == parts[1], "parsed n/t differ from their denotation")
}

// VerifC49_SubsetTotal: checkFlags on every short string over the alphabet of the flag (without
// '%': the percentage form goes through strconv.ParseFloat, see VerifC49_SubsetPercent): no
// panic; accepted => either a valid n/t (1 <= n <= t <= 256) or a size with positive denotation,
// and the parser used later by doReadData returns exactly that value.
func VerifC49_SubsetTotal() {
	const alpha = "0129/+-KT "
	ln := verifrt.Int("len", 1, verifrt.Param("len", 4))
	bs := make([]byte, ln)
	for i := range bs {
		bs[i] = alpha[verifrt.Int("ch", 0, len(alpha)-1)] // symbolic index: no fork
	}
	s := string(bs)
	err := checkFlags(CheckOptions{ReadDataSubset: s})
	if err != nil {
		verifrt.Reach("subset-rejected")
		// completeness for the n/t form
		for k := 1; k+1 < len(s); k++ {
			if s[k] == '/' {
				ok1, _, n := verifC49Number(s[:k], false)
				ok2, _, t := verifC49Number(s[k+1:], false)
				verifrt.Assert(!(ok1 && ok2 && n >= 1 && n <= t && t <= 256), "a valid n/t was rejected")
			}
		}
		return
	}
	slash := -1
	for k := 0; k < len(s); k++ {
		if s[k] == '/' && slash < 0 {
			slash = k
		}
	}
	if slash >= 0 {
		verifrt.Reach("subset-accepted-buckets")
		ok1, _, n := verifC49Number(s[:slash], false)
		ok2, _, t := verifC49Number(s[slash+1:], false)
		verifrt.Assert(ok1 && ok2, "accepted a string with '/' that is not digits/digits")
		verifrt.Assert(n >= 1 && n <= t && t <= 256, "n/t outside 1 <= n <= t <= 256 was accepted")
		sl, err2 := stringToIntSlice(s)
		verifrt.Assert(err2 == nil && len(sl) == 2 && uint64(sl[0]) == n && uint64(sl[1]) == t, "parsed n/t differ from their denotation")
		return
	}
	verifrt.Reach("subset-accepted-size")
	// size form: [+-]digits[unit]
	body := s
	var unit uint64 = 1
	switch s[len(s)-1] {
	case 'K':
		unit, body = 1<<10, s[:len(s)-1]
	case 'T':
		unit, body = 1<<40, s[:len(s)-1]
	}
	ok, neg, mag := verifC49Number(body, true)
	verifrt.Assert(ok, "accepted a string that is neither n/t nor a size")
	verifrt.Assert(!neg && mag > 0, "accepted a size that is not positive")
	v, err3 := ui.ParseBytes(s)
	verifrt.Assert(err3 == nil && v > 0 && uint64(v) == mag*unit, "size used for the subset differs from its denotation")
}

// verifC49Pick returns a concrete copy of the symbolic index i in [0,n) (one path per value).
func verifC49Pick(i, n int) int {
	for k := 0; k < n; k++ {
		if i == k {
			return k
		}
	}
	verifrt.Assume(false)
	return 0
}

// VerifC49_SubsetPercent: checkFlags on <up to L characters over a float alphabet>% with each
// character concretised per path (strconv.ParseFloat runs on concrete strings: the engine has no
// symbolic floating point). Accepted => the percentage handed to selectRandomPacksByPercentage
// is a number in (0, 100].
func VerifC49_SubsetPercent() { verifC49Percent("019.e-+") }

// VerifC49_SubsetPercentSpecial: the same with the letters of "nan" and "inf" in the alphabet.
func VerifC49_SubsetPercentSpecial() { verifC49Percent("019.e-+naif") }

func verifC49Percent(alpha string) {
	l := verifrt.Int("len", 0, verifrt.Param("len", 3))
	b := make([]byte, 0, l+1)
	for i := 0; i < l; i++ {
		b = append(b, alpha[verifC49Pick(verifrt.Int("ch", 0, len(alpha)-1), len(alpha))])
	}
	b = append(b, '%')
	s := string(b)
	err := checkFlags(CheckOptions{ReadDataSubset: s})
	if err != nil {
		verifrt.Reach("percent-rejected")
		return
	}
	verifrt.Reach("percent-accepted")
	p, err2 := parsePercentage(s)
	verifrt.Assert(err2 == nil, "accepted percentage does not parse")
	verifrt.Note("accepted " + s)
	verifrt.Known("C49-nan-percent", p != p)
	verifrt.Assert(p > 0 && p <= 100, "accepted percentage is not a number in (0,100]")
}

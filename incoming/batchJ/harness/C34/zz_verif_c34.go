package repository

// C34 (repair packs part): the real RepairPacks / resolveBlobsForPacks / reuploadBlobsFromPack and
// the real MasterIndex.ListPacks and restic.ParallelRemove run. Stubbed environment: pack header
// reading (listPack), pack content streaming (loadBlobsFromPack: delivers every requested blob,
// each with a symbolic read error), the blob uploader (event + symbolic failure), the index rewrite
// (event + symbolic failure), backend Remove (event).

import (
	"context"
	"errors"

	"github.com/restic/restic/internal/backend"
	"github.com/restic/restic/internal/repository/index"
	"github.com/restic/restic/internal/repository/pack"
	"github.com/restic/restic/internal/restic"
	"github.com/restic/restic/internal/verifrt"
)

type verifC34Event struct {
	kind string // "save", "rewrite", "remove"
	id   restic.ID
	set  restic.IDSet
	ok   bool
	dup  bool
}

type verifC34State struct {
	ev        []verifC34Event
	delivered []restic.BlobHandle // blobs handed to the callback without error
	requested []restic.BlobHandle // blobs asked from loadBlobsFromPack
	hdr       map[restic.ID]pack.Blobs
	hdrErr    map[restic.ID]bool
	packs     []backend.FileInfo

	flushFailed bool
}

var verifC34S *verifC34State

func verifC34Bool(name string) bool {
	if verifrt.Bool(name) {
		return true
	}
	return false
}

type verifC34Backend struct {
	backend.Backend
}

func (b *verifC34Backend) Properties() backend.Properties {
	return backend.Properties{Connections: 2}
}

func (b *verifC34Backend) List(_ context.Context, t backend.FileType, fn func(backend.FileInfo) error) error {
	if t != backend.PackFile {
		return nil
	}
	for _, fi := range verifC34S.packs {
		if err := fn(fi); err != nil {
			return err
		}
	}
	return nil
}

func (b *verifC34Backend) Remove(_ context.Context, h backend.Handle) error {
	verifrt.Assert(h.Type == backend.PackFile, "repair packs removes a non-pack file directly")
	id, _ := restic.ParseID(h.Name)
	ok := !verifC34Bool("removeFails")
	verifC34S.ev = append(verifC34S.ev, verifC34Event{kind: "remove", id: id, ok: ok})
	if !ok {
		return errors.New("remove failed")
	}
	return nil
}

type verifC34Uploader struct {
	restic.BlobSaverWithAsync
}

func (u *verifC34Uploader) SaveBlob(_ context.Context, t restic.BlobType, buf []byte, id restic.ID, storeDuplicate bool) (restic.ID, bool, int, error) {
	var bid restic.ID
	copy(bid[:], buf)
	if verifC34Bool("saveFails") {
		verifC34S.ev = append(verifC34S.ev, verifC34Event{kind: "save", id: bid, ok: false, dup: storeDuplicate})
		return restic.ID{}, false, 0, errors.New("save failed")
	}
	verifC34S.ev = append(verifC34S.ev, verifC34Event{kind: "save", id: bid, ok: true, dup: storeDuplicate})
	return bid, false, len(buf), nil
}

func verifC34StubUploader(r *Repository, ctx context.Context, fn func(ctx context.Context, uploader restic.BlobSaverWithAsync) error) error {
	if err := fn(ctx, &verifC34Uploader{}); err != nil {
		return err
	}
	if verifC34Bool("flushFails") {
		verifC34S.flushFailed = true // nothing is durable
		return errors.New("flush failed")
	}
	return nil
}

func verifC34StubListPack(_ *Repository, _ context.Context, id restic.ID, _ int64) (pack.Blobs, error) {
	if verifC34S.hdrErr[id] {
		return nil, errors.New("header unreadable")
	}
	return verifC34S.hdr[id], nil
}

func verifC34StubLoadBlobs(_ *Repository, _ context.Context, _ restic.ID, blobs pack.Blobs, fn func(blob restic.BlobHandle, buf []byte, err error) error) error {
	for _, b := range blobs {
		verifC34S.requested = append(verifC34S.requested, b.BlobHandle)
		if verifC34Bool("blobDamaged") {
			if err := fn(b.BlobHandle, nil, errors.New("damaged blob")); err != nil {
				return err
			}
			continue
		}
		verifC34S.delivered = append(verifC34S.delivered, b.BlobHandle)
		id := b.ID
		if err := fn(b.BlobHandle, id[:], nil); err != nil {
			return err
		}
	}
	return nil
}

func verifC34StubRewrite(_ context.Context, _ *Repository, removePacks restic.IDSet, oldIndexes restic.IDSet, extraObsolete restic.IDs, _ restic.Printer) error {
	ok := !verifC34Bool("rewriteFails")
	verifC34S.ev = append(verifC34S.ev, verifC34Event{kind: "rewrite", set: removePacks.Clone(), ok: ok})
	if !ok {
		return errors.New("rewrite failed")
	}
	return nil
}

// VerifC34_RepairPacks: two indexed packs (2 and 1 blobs) + one pack header with an extra blob that
// the index does not know; symbolic selection of the packs to repair, header read failures, per-blob
// damage, upload / flush / rewrite / remove failures.
func VerifC34_RepairPacks() {
	s := &verifC34State{hdr: map[restic.ID]pack.Blobs{}, hdrErr: map[restic.ID]bool{}}
	verifC34S = s
	verifrt.Stub("(*internal/repository.Repository).WithBlobUploader", verifC34StubUploader)
	verifrt.Stub("(*internal/repository.Repository).listPack", verifC34StubListPack)
	verifrt.Stub("(*internal/repository.Repository).loadBlobsFromPack", verifC34StubLoadBlobs)
	verifrt.Stub("internal/repository.rewriteIndexFiles", verifC34StubRewrite)

	mk := func(b byte) restic.ID { var id restic.ID; id[0] = b; return id }
	packIDs := []restic.ID{mk(0x41), mk(0x52)}[:verifrt.Param("packs", 2)]
	blob := func(b byte, off uint) pack.Blob {
		return pack.Blob{BlobHandle: restic.BlobHandle{ID: mk(b), Type: restic.DataBlob}, Offset: off, Length: 50}
	}
	idxBlobs := []pack.Blobs{{blob(1, 0), blob(2, 50)}, {blob(3, 0)}}
	idx := index.NewIndex()
	ids := restic.NewIDSet()
	sel := make([]bool, len(packIDs))
	for p := range packIDs {
		idx.StorePack(packIDs[p], idxBlobs[p])
		s.packs = append(s.packs, backend.FileInfo{Name: packIDs[p].String(), Size: 500})
		hdr := append(pack.Blobs{}, idxBlobs[p]...)
		if verifC34Bool("headerHasExtraBlob") {
			hdr = append(hdr, blob(byte(9+p), 100))
		}
		s.hdr[packIDs[p]] = hdr
		s.hdrErr[packIDs[p]] = verifC34Bool("headerUnreadable")
		sel[p] = verifC34Bool("selected")
		if sel[p] {
			ids.Insert(packIDs[p])
		}
	}
	idx.Finalize()
	_ = idx.SetID(mk(0xee))
	mi := index.NewMasterIndex()
	mi.Insert(idx)
	_ = mi.MergeFinalIndexes()
	repo := &Repository{be: &verifC34Backend{}, idx: mi, cfg: restic.Config{Version: 2}, opts: Options{PackSize: DefaultPackSize}}

	err := RepairPacks(context.Background(), repo, ids, restic.NewNoopPrinter())

	// order: saves* ; rewrite ; removes*
	phase := 0
	saveFailed, rewriteOK := false, false
	for _, e := range s.ev {
		switch e.kind {
		case "save":
			verifrt.Assert(phase == 0, "a blob is uploaded after the index rewrite / pack removal started")
			verifrt.Assert(!saveFailed, "uploading continues after a failed upload")
			verifrt.Assert(e.dup, "salvaged blobs must be stored even if the index already knows them (storeDuplicate)")
			if !e.ok {
				saveFailed = true
			}
		case "rewrite":
			verifrt.Assert(phase == 0, "index rewritten twice or after removal")
			verifrt.Assert(!saveFailed && !s.flushFailed, "the index is rewritten although salvaging failed")
			phase = 1
			rewriteOK = e.ok
			for p := range packIDs {
				verifrt.Assert(e.set.Has(packIDs[p]) == sel[p], "the index rewrite drops the wrong set of packs")
			}
		case "remove":
			verifrt.Assert(phase >= 1 && rewriteOK, "a pack is removed before the index rewrite succeeded")
			phase = 2
			found := false
			for p := range packIDs {
				if e.id == packIDs[p] {
					found = true
					verifrt.Assert(sel[p], "a pack that was not named is removed")
				}
			}
			verifrt.Assert(found, "unknown file removed")
		}
	}
	if err != nil {
		verifrt.Assert(phase < 2, "pack removed although repair packs failed")
		verifrt.Reach("failed")
		return
	}
	verifrt.Assert(!saveFailed && !s.flushFailed && phase >= 1 && rewriteOK, "success reported although a step failed")
	// every blob that could be read was uploaded (durably) before the rewrite
	for _, h := range s.delivered {
		saved := false
		for _, e := range s.ev {
			if e.kind == "save" && e.ok && e.id == h.ID {
				saved = true
			}
		}
		verifrt.Assert(saved, "a readable blob of a damaged pack was not re-uploaded")
	}
	// every blob the index or a readable header lists for a selected pack was at least requested
	for p := range packIDs {
		if !sel[p] {
			continue
		}
		want := append(pack.Blobs{}, idxBlobs[p]...)
		if !s.hdrErr[packIDs[p]] {
			want = append(want, s.hdr[packIDs[p]]...)
		}
		for _, w := range want {
			req := false
			for _, h := range s.requested {
				if h == w.BlobHandle {
					req = true
				}
			}
			verifrt.Assert(req, "a blob listed by the index or the pack header was never tried")
		}
		removed := false
		for _, e := range s.ev {
			if e.kind == "remove" && e.id == packIDs[p] {
				removed = true
			}
		}
		verifrt.Assert(removed, "a salvaged pack is not removed on success")
	}
	if len(s.delivered) > 0 {
		verifrt.Reach("salvaged")
	}
}

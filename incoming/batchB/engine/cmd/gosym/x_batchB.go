package main

// Intrinsics added for batch B (C44: package pack computes its entry sizes with binary.Size in a
// package-level initialiser).

import (
	"go/types"

	"golang.org/x/tools/go/ssa"
)

// fixedSize mirrors encoding/binary.dataSize for values of fixed-size types: the number of bytes
// binary.Write would produce, or -1 if the type is not fixed-size.
func fixedSize(t types.Type) int {
	switch u := t.Underlying().(type) {
	case *types.Basic:
		switch u.Kind() {
		case types.Bool, types.Int8, types.Uint8:
			return 1
		case types.Int16, types.Uint16:
			return 2
		case types.Int32, types.Uint32, types.Float32:
			return 4
		case types.Int64, types.Uint64, types.Float64, types.Complex64:
			return 8
		case types.Complex128:
			return 16
		}
		return -1
	case *types.Array:
		s := fixedSize(u.Elem())
		if s < 0 {
			return -1
		}
		return s * int(u.Len())
	case *types.Struct:
		sum := 0
		for i := 0; i < u.NumFields(); i++ {
			s := fixedSize(u.Field(i).Type())
			if s < 0 {
				return -1
			}
			sum += s
		}
		return sum
	case *types.Pointer:
		return fixedSize(u.Elem())
	}
	return -1
}

func init() {
	intrinsics["encoding/binary.Size"] = func(th *Thread, fn *ssa.Function, args []Value) Value {
		iv, ok := args[0].(*IfaceV)
		if !ok || iv.T == nil {
			return th.ctx().Const(64, ^uint64(0))
		}
		if sl, ok := iv.T.Underlying().(*types.Slice); ok {
			s := fixedSize(sl.Elem())
			sv, ok2 := iv.V.(*SliceV)
			if s < 0 || !ok2 {
				return th.ctx().Const(64, ^uint64(0))
			}
			return th.ctx().Const(64, uint64(s*sv.Len))
		}
		return th.ctx().Const(64, uint64(int64(fixedSize(iv.T))))
	}
}

package main

// Batch H (prune / repair / copy): intrinsics for hash/maphash, whose runtime hooks
// (runtime.memhash, runtime.rand) have no Go body.
//
// Model: the seed is the constant 1 and the hash of every byte string is the tier parameter
// "maphash" (default 0), i.e. one fixed (maximally colliding) hash function. Any function of
// the bytes is a legal maphash behaviour for *some* seed as far as callers can tell (they only
// use it to pick hash-table buckets), so this is one valid interpretation; it makes every
// bucket chain as long as possible, which is the interesting case for the chained tables in
// internal/repository/index. Checks whose claim is about the hash table itself (C56) should
// use an uninterpreted function instead.

import (
	"go/types"

	"golang.org/x/tools/go/ssa"
)

// binarySizeBatchH: encoding/binary.Size for fixed-size values (integers, bools, arrays and
// structs of those; pointers to them); -1 otherwise, as the real function.
func binarySizeBatchH(t types.Type) int {
	switch u := t.Underlying().(type) {
	case *types.Basic:
		switch u.Kind() {
		case types.Bool, types.Int8, types.Uint8:
			return 1
		case types.Int16, types.Uint16:
			return 2
		case types.Int32, types.Uint32, types.Float32:
			return 4
		case types.Int64, types.Uint64, types.Float64, types.Complex64:
			return 8
		case types.Complex128:
			return 16
		}
		return -1
	case *types.Array:
		e := binarySizeBatchH(u.Elem())
		if e < 0 {
			return -1
		}
		return e * int(u.Len())
	case *types.Struct:
		n := 0
		for i := 0; i < u.NumFields(); i++ {
			e := binarySizeBatchH(u.Field(i).Type())
			if e < 0 {
				return -1
			}
			n += e
		}
		return n
	}
	return -1
}

func init() {
	hashConst := func(th *Thread, fn *ssa.Function, args []Value) Value {
		n := 0
		if v, ok := th.p.eng.cfg.Params["maphash"]; ok {
			n = v
		}
		return th.ctx().Const(64, uint64(n))
	}
	if _, ok := intrinsics["hash/maphash.rthash"]; !ok {
		intrinsics["hash/maphash.rthash"] = hashConst
	}
	if _, ok := intrinsics["hash/maphash.rthashString"]; !ok {
		intrinsics["hash/maphash.rthashString"] = hashConst
	}
	if _, ok := intrinsics["hash/maphash.randUint64"]; !ok {
		intrinsics["hash/maphash.randUint64"] = func(th *Thread, fn *ssa.Function, args []Value) Value {
			return th.ctx().Const(64, 1)
		}
	}
	if _, ok := intrinsics["encoding/binary.Size"]; !ok {
		intrinsics["encoding/binary.Size"] = func(th *Thread, fn *ssa.Function, args []Value) Value {
			n := -1
			if iv, ok := args[0].(*IfaceV); ok && iv.T != nil {
				t := iv.T
				if p, ok := t.Underlying().(*types.Pointer); ok {
					t = p.Elem()
				}
				if sl, ok := t.Underlying().(*types.Slice); ok {
					if sv, ok := iv.V.(*SliceV); ok {
						if e := binarySizeBatchH(sl.Elem()); e >= 0 {
							n = e * sv.Len
						}
					}
				} else {
					n = binarySizeBatchH(t)
				}
			}
			return th.ctx().Const(64, uint64(int64(n)))
		}
	}
	// maps.clone (runtime linkname): shallow copy of a map, used by maps.Clone (restic.IDSet.Clone)
	if _, ok := intrinsics["maps.clone"]; !ok {
		intrinsics["maps.clone"] = func(th *Thread, fn *ssa.Function, args []Value) Value {
			iv, ok := args[0].(*IfaceV)
			if !ok {
				panic(engineErr("maps.clone: unexpected argument %T", args[0]))
			}
			mv, ok := iv.V.(*MapV)
			if !ok {
				panic(engineErr("maps.clone: unexpected dynamic value %T", iv.V))
			}
			if mv.M == nil {
				return &IfaceV{T: iv.T, V: &MapV{}}
			}
			nm := &MapObj{}
			for k := range mv.M.Keys {
				if mv.M.Dead[k] {
					continue
				}
				nm.Keys = append(nm.Keys, mv.M.Keys[k])
				nm.Vals = append(nm.Vals, mv.M.Vals[k])
				nm.Dead = append(nm.Dead, false)
				nm.N++
			}
			return &IfaceV{T: iv.T, V: &MapV{M: nm}}
		}
	}
	// os/signal.Notify: no signal is ever delivered (restic's repository package starts a goroutine
	// in init() that waits for SIGHUP forever)
	if _, ok := intrinsics["os/signal.Notify"]; !ok {
		intrinsics["os/signal.Notify"] = func(th *Thread, fn *ssa.Function, args []Value) Value { return nil }
	}
}

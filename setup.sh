#!/bin/sh
# builds the symbolic engine offline (go1.25.10 toolchain from the module cache, x/tools v0.29.0)
set -e
cd "$(dirname "$0")/engine"
TC=/root/go/pkg/mod/golang.org/toolchain@v0.0.1-go1.25.10.linux-amd64/bin
export PATH="$TC:$PATH"
export GOTOOLCHAIN=local GOFLAGS=-mod=mod GOPROXY=off
mkdir -p ../bin
go build -o ../bin/gosym ./cmd/gosym
echo "built $(cd .. && pwd)/bin/gosym"

package repository

import (
	"context"
	"runtime"
	"strings"
	"testing"
	"time"

	"github.com/restic/restic/internal/backend"
	"github.com/restic/restic/internal/restic"
)

func currentLockIDs(t *testing.T, repo *Repository) map[restic.ID]bool {
	ids := map[restic.ID]bool{}
	if err := repo.List(context.TODO(), restic.LockFile, func(id restic.ID, _ int64) error { ids[id] = true; return nil }); err != nil {
		t.Fatal(err)
	}
	return ids
}

// A refresh that is slow but succeeds while the monitor already asks for a forced refresh:
// afterwards the lock must keep being refreshed (or the context must be cancelled).
func TestZZC13RefreshKeepsWorkingAfterSlowRefresh(t *testing.T) {
	TestSetLockTimeout(t, 5*time.Millisecond)
	var sb *slowBackend
	repo, _ := openLockTestRepo(t, func(r backend.Backend) (backend.Backend, error) {
		sb = &slowBackend{Backend: r}
		return sb, nil
	})
	li := &locker{
		retrySleepStart:       lockerInst.retrySleepStart,
		retrySleepMax:         lockerInst.retrySleepMax,
		refreshInterval:       20 * time.Millisecond,
		refreshabilityTimeout: 100 * time.Millisecond,
	}
	unlock, wrappedCtx := checkedLockRepo(context.Background(), t, repo, li, 0)
	defer unlock()
	// one refresh takes longer than the remaining refreshability window but succeeds
	sb.m.Lock()
	sb.sleep = 150 * time.Millisecond
	sb.m.Unlock()
	time.Sleep(200 * time.Millisecond)
	sb.m.Lock()
	sb.sleep = 0
	sb.m.Unlock()
	time.Sleep(300 * time.Millisecond) // let things settle
	if wrappedCtx.Err() != nil {
		t.Log("context was cancelled: acceptable")
		return
	}
	buf := make([]byte, 1<<20)
	n := runtime.Stack(buf, true)
	for _, g := range strings.Split(string(buf[:n]), "\n\n") {
		if strings.Contains(g, "refreshLocks") || strings.Contains(g, "monitorLockRefresh") {
			t.Log(g)
		}
	}
	before := currentLockIDs(t, repo)
	time.Sleep(10 * li.refreshInterval)
	after := currentLockIDs(t, repo)
	same := len(before) == len(after)
	for id := range before {
		if !after[id] {
			same = false
		}
	}
	if same && wrappedCtx.Err() == nil {
		t.Fatalf("lock is no longer refreshed (lock files unchanged for 10 refresh intervals: %v) and the context is still live", after)
	}
}

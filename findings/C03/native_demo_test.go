package checker_test

// Demonstration (observation by an independent mutation author for C42, confirmed here): a tree blob
// that is authentic (its hash is its ID) but whose JSON breaks off in the middle of the node list made
// `restic check` panic ("tree was not read completely") instead of reporting the damaged tree.
// Place in internal/checker/ and run: go test -run TestZZTruncatedTreeIsReported ./internal/checker/

import (
	"context"
	"testing"
	"time"

	"github.com/restic/restic/internal/checker"
	"github.com/restic/restic/internal/data"
	"github.com/restic/restic/internal/repository"
	"github.com/restic/restic/internal/restic"
	rtest "github.com/restic/restic/internal/test"
)

func TestZZTruncatedTreeIsReported(t *testing.T) {
	repo, _, _ := repository.TestRepositoryWithVersion(t, 0)
	var treeID restic.ID
	rtest.OK(t, repo.WithBlobUploader(context.TODO(), func(ctx context.Context, uploader restic.BlobSaverWithAsync) error {
		var err error
		// the second node is not valid JSON for a node
		treeID, _, _, err = uploader.SaveBlob(ctx, restic.TreeBlob, []byte(`{"nodes":[{"name":"a","type":"file","content":[]},{"name":"b","type":5}]}`+"\n"), restic.ID{}, false)
		return err
	}))
	sn, err := data.NewSnapshot([]string{"/x"}, nil, "host", time.Now())
	rtest.OK(t, err)
	sn.Tree = &treeID
	_, err = data.SaveSnapshot(context.TODO(), repo, sn)
	rtest.OK(t, err)

	chkr := checker.New(repo, false)
	hints, errs := chkr.LoadIndex(context.TODO(), restic.NoopTerminalCounterFactory)
	if len(hints) > 0 || len(errs) > 0 {
		t.Fatalf("LoadIndex: %v %v", hints, errs)
	}
	rtest.OK(t, chkr.LoadSnapshots(context.TODO(), &data.SnapshotFilter{}, nil))
	errChan := make(chan error)
	go chkr.Structure(context.TODO(), restic.NoopCounter, errChan)
	n := 0
	for err := range errChan {
		t.Logf("reported: %v", err)
		n++
	}
	if n == 0 {
		t.Fatal("the damaged tree was not reported")
	}
}

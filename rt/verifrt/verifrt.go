// Package verifrt is the runtime of the /verif harnesses. It is injected into the
// restic module by overlay (never committed to /repo).
//
// Under the symbolic engine (gosym) every function here is intercepted: nondet
// values become SMT variables, Assert becomes a solver query. Compiled natively
// (go test -overlay ...) the same functions read a counterexample produced by the
// solver from the JSON file named by $VERIF_REPLAY, so that a violation found
// symbolically is replayed against the real build.
package verifrt

import (
	"encoding/json"
	"fmt"
	"os"
	"sync"
	"time"
)

type replayFile struct {
	Vars   map[string]uint64 `json:"vars"`
	Params map[string]int    `json:"params"`
}

var (
	mu     sync.Mutex
	loaded bool
	rf     replayFile
	counts = map[string]int{}
)

func load() {
	if loaded {
		return
	}
	loaded = true
	rf.Vars = map[string]uint64{}
	rf.Params = map[string]int{}
	if p := os.Getenv("VERIF_REPLAY"); p != "" {
		b, err := os.ReadFile(p)
		if err != nil {
			panic("verifrt: cannot read replay file: " + err.Error())
		}
		if err := json.Unmarshal(b, &rf); err != nil {
			panic("verifrt: bad replay file: " + err.Error())
		}
	}
}

func next(name string) uint64 {
	mu.Lock()
	defer mu.Unlock()
	load()
	k := counts[name]
	counts[name] = k + 1
	return rf.Vars[fmt.Sprintf("%s#%d", name, k)]
}

// AssertionFailed is the panic value used natively when an Assert fails.
type AssertionFailed struct{ Msg string }

func (a AssertionFailed) Error() string { return "VERIF-ASSERT-FAILED: " + a.Msg }

// AssumptionFailed is the panic value used natively when an Assume does not hold
// (the counterexample does not transfer: encoding mismatch).
type AssumptionFailed struct{}

func (AssumptionFailed) Error() string { return "VERIF-ASSUME-FAILED" }

// Param returns a tier-dependent bound.
func Param(name string, def int) int {
	mu.Lock()
	defer mu.Unlock()
	load()
	if v, ok := rf.Params[name]; ok {
		return v
	}
	return def
}

// Symbolic reports whether the harness runs under the symbolic engine.
func Symbolic() bool { return false }

func Bool(name string) bool     { return next(name) != 0 }
func Byte(name string) byte     { return byte(next(name)) }
func Uint16(name string) uint16 { return uint16(next(name)) }
func Uint32(name string) uint32 { return uint32(next(name)) }
func Uint64(name string) uint64 { return next(name) }
func Int64(name string) int64   { return int64(next(name)) }

// Int returns an arbitrary int in [lo, hi].
func Int(name string, lo, hi int) int {
	v := int(int64(next(name)))
	if v < lo || v > hi {
		panic(AssumptionFailed{})
	}
	return v
}

func bytesN(name string, n int) []byte {
	b := make([]byte, n)
	for i := range b {
		b[i] = byte(next(fmt.Sprintf("%s[%d]", name, i)))
	}
	return b
}

// Bytes returns an arbitrary byte slice of length 0..max.
func Bytes(name string, max int) []byte {
	n := int(next(name + ".len"))
	if n > max {
		panic(AssumptionFailed{})
	}
	return bytesN(name, n)
}

// BytesN returns an arbitrary byte slice of length n.
func BytesN(name string, n int) []byte { return bytesN(name, n) }

// String returns an arbitrary string of length 0..max.
func String(name string, max int) string { return string(Bytes(name, max)) }

// StringN returns an arbitrary string of length n.
func StringN(name string, n int) string { return string(bytesN(name, n)) }

func Assume(c bool) {
	if !c {
		panic(AssumptionFailed{})
	}
}

func Assert(c bool, msg string) {
	if !c {
		panic(AssertionFailed{Msg: msg})
	}
}

// Reach marks a program point that must be reachable (vacuity witness).
func Reach(label string) {}

// Known declares the predicate of a known finding: when cond holds on this path, assertion
// failures are reported as KNOWN-FINDING (only if id is listed in /verif/KNOWN_FINDINGS.txt).
func Known(id string, cond bool) {}

// Note records a concrete string in the evidence samples.
func Note(s string) {}

// Unwind overrides the unwinding bound for the current path.
func Unwind(n int) {}

// Yield is a scheduling point.
func Yield() {}

// Settle blocks the caller until every other goroutine is blocked or finished (quiescence). Harnesses
// use it to let a goroutine finish processing an event before the harness-controlled clock advances.
// Native: a short sleep.
func Settle() { time.Sleep(20 * time.Millisecond) }

// ExpectPanic runs f and reports whether it panicked.
func ExpectPanic(f func()) (panicked bool) {
	defer func() {
		if r := recover(); r != nil {
			switch r.(type) {
			case AssertionFailed, AssumptionFailed:
				panic(r)
			}
			panicked = true
		}
	}()
	f()
	return false
}

// Stub redirects calls of the named function to repl under the symbolic engine.
// Natively the real function runs.
func Stub(target string, repl interface{}) {}

// HavocAllExcept: under the engine, every function called from one of the kept
// functions (and not itself kept) returns arbitrary results.
func HavocAllExcept(keep ...string) {}

// UF64 is an uninterpreted function. Natively: a fixed mixing function (one valid interpretation).
func UF64(name string, args ...uint64) uint64 {
	h := uint64(1469598103934665603)
	for i := 0; i < len(name); i++ {
		h = (h ^ uint64(name[i])) * 1099511628211
	}
	for _, a := range args {
		for k := 0; k < 8; k++ {
			h = (h ^ (a >> (8 * uint(k)) & 0xff)) * 1099511628211
		}
	}
	return h
}

// UFBool is an uninterpreted predicate.
func UFBool(name string, args ...uint64) bool { return UF64(name, args...)&1 == 1 }

// UFBytes is an uninterpreted function from a byte string to outLen bytes.
func UFBytes(name string, outLen int, in []byte) []byte {
	out := make([]byte, outLen)
	h := UF64(name, uint64(len(in)))
	for _, b := range in {
		h = (h ^ uint64(b)) * 1099511628211
	}
	for i := range out {
		h = h*6364136223846793005 + 1442695040888963407
		out[i] = byte(h >> 33)
	}
	return out
}
